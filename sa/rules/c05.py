"""C05 — a generated molecule is a tree of whole token copies (structural part only)."""
from __future__ import annotations

import ast

from ..loader import AnalysisError, own_nodes, src
from ..util import callee_name, calls
from . import c04

LEVEL = "other"


def accessors(eng, res, rule="R-ACCESSORS"):
    ci = eng.prog.cls("MolGen")
    # mol: sanitises a deep copy
    fi = ci.method("mol")
    if fi is None:
        raise AnalysisError("MolGen.mol not found")
    res.unit(fi)
    flow = eng.flow(fi)
    san = calls(fi, "SanitizeMol")
    rets = [n for n in own_nodes(fi.node) if isinstance(n, ast.Return) and n.value is not None]
    ok_ret = bool(rets) and all(src(flow.expand(r.value, flow.cfg.node_of(r))) == "copy.deepcopy(self._mol)" for r in rets)
    res.ob(rule, fi, "mol-returns-copy", "`mol` returns a deep copy of the stored molecule", fi.node, ok_ret,
           f"returns {[src(flow.expand(r.value, flow.cfg.node_of(r))) for r in rets]}")
    ok_san = len(san) >= 1 and all(
        src(flow.expand(c.args[0], flow.cfg.node_of(c))) == "copy.deepcopy(self._mol)" and isinstance(c.args[0], ast.Name) for c in san if c.args
    )
    res.ob(rule, fi, "mol-sanitises-copy", "sanitisation is applied to the copy, never to the stored molecule (reading does not modify)", fi.node, ok_san,
           f"SanitizeMol arguments: {[src(c.args[0]) for c in san if c.args]}")
    stores = [n for n in own_nodes(fi.node) if isinstance(n, ast.Attribute) and isinstance(n.ctx, ast.Store)]
    res.ob(rule, fi, "mol-no-store", "`mol` stores nothing on the object", fi.node, not stores, f"{[src(s) for s in stores]}")
    # smiles derives from mol
    fs = ci.method("smiles")
    if fs is None:
        raise AnalysisError("MolGen.smiles not found")
    res.unit(fs)
    fl = eng.flow(fs)
    rets = [n for n in own_nodes(fs.node) if isinstance(n, ast.Return) and n.value is not None]
    t = [src(fl.expand(r.value, fl.cfg.node_of(r))) for r in rets]
    res.ob(rule, fs, "smiles-from-mol", "`smiles` is MolToSmiles of the sanitised copy", fs.node, bool(t) and all(x == "Chem.MolToSmiles(self.mol)" for x in t), f"{t}")
    # weight: heavy-atom weight of own molecule
    fw = ci.method("weight")
    if fw is None:
        raise AnalysisError("MolGen.weight not found")
    res.unit(fw)
    fl = eng.flow(fw)
    rets = [n for n in own_nodes(fw.node) if isinstance(n, ast.Return) and n.value is not None]
    t = [src(fl.expand(r.value, fl.cfg.node_of(r))) for r in rets]
    ok = bool(t) and all(x in ("rdDescriptors.HeavyAtomMolWt(self._mol)", "rdDescriptors.HeavyAtomMolWt(self.mol)") for x in t)
    res.ob(rule, fw, "weight-own-heavy-atoms", "`weight` is the heavy-atom weight of the object's own molecule", fw.node, ok, f"{t}")
    # fragment construction: the fragment SMILES comes from the token itself
    init = eng.prog.func("mol_gen.MolGen.__init__")
    fl = eng.flow(init)
    mk = calls(init, "MolFromSmiles")
    ok = len(mk) == 1
    why = f"{len(mk)} MolFromSmiles call(s)"
    if ok:
        a = fl.expand(mk[0].args[0], fl.cfg.node_of(mk[0]))
        tok = init.params[1]
        ok = src(a) == f"{tok}.generate_smiles_fragment()"
        why = f"fragment built from {src(a)}"
        st = [n for n in own_nodes(init.node) if isinstance(n, ast.Assign) and any(isinstance(x, ast.Attribute) and x.attr == "_mol" for x in n.targets)]
        if ok and not (len(st) == 1 and src(fl.expand(st[0].value, fl.cfg.node_of(st[0]))).startswith("Chem.MolFromSmiles(")):
            ok = False
            why = "the stored molecule is not the parsed fragment"
    res.ob(rule, init, "fragment-from-token", "a fragment's atoms are exactly RDKit's parse of the token's own fragment SMILES", init.node, ok, why)


def check(eng, res):
    res.doc("R-ATOM-SOURCE", "atoms enter a MolGen only through MolFromSmiles(token fragment) in the constructor and CombineMols in attach_other")
    res.doc("R-ONE-BOND", "exactly one AddBond, one residue-graph edge, one CombineMols, one disjoint_union per attachment, none in a loop")
    res.doc("R-FRESH-OTHER", "`other` is always a fresh MolGen(token) (single-node graph): residue graph stays a tree by induction")
    res.doc("R-ACCESSORS", "mol sanitises a deep copy; smiles derives from mol; weight is the own heavy-atom weight")
    n, _ = c04.bond_primitive(eng, res, rule="R-ATOM-SOURCE")
    res.floor("R-ATOM-SOURCE", n, 5)
    A = c04.Attach(eng)
    res.unit(A.fi)
    c04.one_bond(eng, res, A)
    ns = c04.fresh_other(eng, res)
    res.floor("R-FRESH-OTHER", ns, 3)
    accessors(eng, res)
    res.assumptions += ["CombineMols / AddBond / deepcopy behave as documented", "induction over attach_other: |V| grows by the other side's nodes, |E| by its edges + 1"]
    res.not_decided += [
        "chemical sanitisation succeeding, hydrogen counts of unbracketed atoms, mass additivity, identity of charges / isotopes with the token (RDKit semantics on runtime values)",
    ]
