"""C05 — a generated molecule is a tree of whole token copies (structural part only)."""
from __future__ import annotations

import ast

from ..loader import AnalysisError, own_nodes, src
from ..util import callee_name, calls
from . import c04

LEVEL = "other"


def accessors(eng, res, rule="R-ACCESSORS"):
    ci = eng.prog.cls("MolGen")
    # mol: sanitises a deep copy
    fi = ci.method("mol")
    if fi is None:
        raise AnalysisError("MolGen.mol not found")
    res.unit(fi)
    flow = eng.flow(fi)
    san = calls(fi, "SanitizeMol")
    rets = [n for n in own_nodes(fi.node) if isinstance(n, ast.Return) and n.value is not None]
    ok_ret = bool(rets) and all(src(flow.expand(r.value, flow.cfg.node_of(r))) == "copy.deepcopy(self._mol)" for r in rets)
    res.ob(rule, fi, "mol-returns-copy", "`mol` returns a deep copy of the stored molecule", fi.node, ok_ret,
           f"returns {[src(flow.expand(r.value, flow.cfg.node_of(r))) for r in rets]}")
    ok_san = len(san) >= 1 and all(
        src(flow.expand(c.args[0], flow.cfg.node_of(c))) == "copy.deepcopy(self._mol)" and isinstance(c.args[0], ast.Name) for c in san if c.args
    )
    res.ob(rule, fi, "mol-sanitises-copy", "sanitisation is applied to the copy, never to the stored molecule (reading does not modify)", fi.node, ok_san,
           f"SanitizeMol arguments: {[src(c.args[0]) for c in san if c.args]}")
    stores = [n for n in own_nodes(fi.node) if isinstance(n, ast.Attribute) and isinstance(n.ctx, ast.Store)]
    res.ob(rule, fi, "mol-no-store", "`mol` stores nothing on the object", fi.node, not stores, f"{[src(s) for s in stores]}")
    # smiles derives from mol
    fs = ci.method("smiles")
    if fs is None:
        raise AnalysisError("MolGen.smiles not found")
    res.unit(fs)
    fl = eng.flow(fs)
    rets = [n for n in own_nodes(fs.node) if isinstance(n, ast.Return) and n.value is not None]
    t = [src(fl.expand(r.value, fl.cfg.node_of(r))) for r in rets]
    res.ob(rule, fs, "smiles-from-mol", "`smiles` is MolToSmiles of the sanitised copy", fs.node, bool(t) and all(x == "Chem.MolToSmiles(self.mol)" for x in t), f"{t}")
    # weight: heavy-atom weight of own molecule
    fw = ci.method("weight")
    if fw is None:
        raise AnalysisError("MolGen.weight not found")
    res.unit(fw)
    fl = eng.flow(fw)
    rets = [n for n in own_nodes(fw.node) if isinstance(n, ast.Return) and n.value is not None]
    t = [src(fl.expand(r.value, fl.cfg.node_of(r))) for r in rets]
    ok = bool(t) and all(x in ("rdDescriptors.HeavyAtomMolWt(self._mol)", "rdDescriptors.HeavyAtomMolWt(self.mol)") for x in t)
    res.ob(rule, fw, "weight-own-heavy-atoms", "`weight` is the heavy-atom weight of the object's own molecule", fw.node, ok, f"{t}")
    # fragment construction: the fragment SMILES comes from the token itself
    init = eng.prog.func("mol_gen.MolGen.__init__")
    fl = eng.flow(init)
    mk = calls(init, "MolFromSmiles")
    ok = len(mk) == 1
    why = f"{len(mk)} MolFromSmiles call(s)"
    if ok:
        a = fl.expand(mk[0].args[0], fl.cfg.node_of(mk[0]))
        tok = init.params[1]
        ok = src(a) == f"{tok}.generate_smiles_fragment()"
        why = f"fragment built from {src(a)}"
        st = [n for n in own_nodes(init.node) if isinstance(n, ast.Assign) and any(isinstance(x, ast.Attribute) and x.attr == "_mol" for x in n.targets)]
        if ok and not (len(st) == 1 and src(fl.expand(st[0].value, fl.cfg.node_of(st[0]))).startswith("Chem.MolFromSmiles(")):
            ok = False
            why = "the stored molecule is not the parsed fragment"
    res.ob(rule, init, "fragment-from-token", "a fragment's atoms are exactly RDKit's parse of the token's own fragment SMILES", init.node, ok, why)


def fragment_template(eng, res, rule="R-FRAGMENT"):
    """generate_smiles_fragment: text elements verbatim, atoms as written, every bond descriptor replaced by a break
    '.', then empty branches '(.)' removed, '.)' -> ')', outer dots stripped — so a fragment has exactly the token's
    atoms and internal bonds and nothing in place of the descriptors."""
    from .c17 import locate

    f = eng.prog.cls("SmilesToken").method("generate_smiles_fragment")
    if f is None:
        raise AnalysisError("SmilesToken.generate_smiles_fragment not found")
    res.unit(f)
    fl = eng.flow(f)
    cfg = fl.cfg
    e, nd = locate(f, ["for $E in self.elements", "if isinstance($E, str)", "$ES += $E", "if isinstance($E, Atom)", "$ES += $E.generate_string(False)",
                       "if isinstance($E, BondDescriptor)", "$ES += '.'", "$S += $ES", "$S = $S.replace('(.)', '')", "$S = $S.replace('.)', ')')", "$S = $S.strip('.')", "return $S"])
    res.ob(rule, f, "shape", "text verbatim, atoms as written, each descriptor becomes the break '.', then '(.)' removed, '.)' -> ')', outer '.' stripped", f.node, e is not None,
           "statement pattern of the fragment printer not found")
    if e is None:
        return
    lp = nd["for $E in self.elements"]
    # each contribution under exactly its own kind test; the per-element text is reset each round and appended once
    pairs = [("$ES += $E", f"isinstance({e['E']}, str)"), ("$ES += $E.generate_string(False)", f"isinstance({e['E']}, Atom)"), ("$ES += '.'", f"isinstance({e['E']}, BondDescriptor)")]
    ok = True
    for pat_, g in pairs:
        n = nd[pat_]
        gs = [(src(t), pol) for t, pol in cfg.guard_exprs(cfg.node_of(n)) if isinstance(getattr(t, "_parent"), ast.If)]
        ok = ok and gs == [(g, True)]
    res.ob(rule, f, "kinds", "each element kind contributes under exactly its own type test", lp, ok)
    app = nd["$S += $ES"]
    reset = [d for d in fl.defs if d.name == e["ES"] and d.kind == "assign"]
    ok = lp in cfg.enclosing_loops(app) and len(reset) == 1 and src(reset[0].value) == "''" and lp in cfg.enclosing_loops(reset[0].stmt) and cfg.must_pass(reset[0].nid, cfg.node_of(app))
    starts = [d for d, l in cfg.succ[cfg.node_of(lp)] if l == "T"]
    ok = ok and cfg.node_of(lp) not in cfg.reachable(starts, avoid_nodes={cfg.node_of(app)}) or ok and cfg.raises
    res.ob(rule, f, "one-piece-per-element", "every element contributes exactly one piece, in order", app, bool(ok))
    order = [cfg.node_of(nd[p]) for p in ("$S = $S.replace('(.)', '')", "$S = $S.replace('.)', ')')", "$S = $S.strip('.')", "return $S")]
    ok = all(order[i + 1] in cfg.reachable([order[i]]) and order[i] not in cfg.reachable([order[i + 1]]) for i in range(3)) and all(not cfg.enclosing_loops(nd[p]) for p in nd if p.startswith("$S = "))
    res.ob(rule, f, "clean-up-order", "empty branches are removed first, then dangling breaks before ')', then outer breaks; the cleaned text is returned", f.node, ok)


def check(eng, res):
    res.doc("R-INDEX-WRITERS", "descriptor atom / node indices are written only by the parser and the attachment shift (shared with C04)")
    res.doc("R-BRANCH-ORDER", "the binding atom recorded by the token parser follows the branch structure of the text (shared with C02)")
    res.doc("R-FRAGMENT", "the fragment SMILES of a token: atoms and internal bonds as written, descriptors become breaks, empty branches removed")
    res.doc("R-ATOM-SOURCE", "atoms enter a MolGen only through MolFromSmiles(token fragment) in the constructor and CombineMols in attach_other")
    res.doc("R-ONE-BOND", "exactly one AddBond, one residue-graph edge, one CombineMols, one disjoint_union per attachment, none in a loop")
    res.doc("R-FRESH-OTHER", "`other` is always a fresh MolGen(token) (single-node graph): residue graph stays a tree by induction")
    res.doc("R-ACCESSORS", "mol sanitises a deep copy; smiles derives from mol; weight is the own heavy-atom weight")
    n, _ = c04.bond_primitive(eng, res, rule="R-ATOM-SOURCE")
    res.floor("R-ATOM-SOURCE", n, 5)
    A = c04.Attach(eng)
    res.unit(A.fi)
    c04.one_bond(eng, res, A)
    ns = c04.fresh_other(eng, res)
    res.floor("R-FRESH-OTHER", ns, 3)
    accessors(eng, res)
    from ..memo import memo_rules

    memo_rules(eng, res, only_classes=["MolGen"])
    fragment_template(eng, res)
    nw = c04.index_writers(eng, res)
    res.floor("R-INDEX-WRITERS", nw, 4)
    from . import c02

    sub2 = type(res)(res.prop)
    c02.branch_order(eng, sub2)
    c02.descriptor_origin(eng, sub2)
    res.obligations += sub2.obligations
    # the token scanner decides which characters are atoms and in which order (shared with C02)
    from . import c02 as _c02

    res.doc("R-SCAN-ORDER", "token scanner: pending text is flushed before every atom and at the end; the cursor drops exactly the consumed prefix (shared with C02)")
    res.doc("R-ATOM-TABLE", "the scanner's atom tables are the organic subset (with aromatic forms) and Cl/Br, two letters first (shared with C02)")
    _c02.scan_order(eng, res)
    _c02.atom_table(eng, res)
    res.assumptions += ["CombineMols / AddBond / deepcopy behave as documented", "induction over attach_other: |V| grows by the other side's nodes, |E| by its edges + 1"]
    res.not_decided += [
        "chemical sanitisation succeeding, hydrogen counts of unbracketed atoms, mass additivity, identity of charges / isotopes with the token (RDKit semantics on runtime values)",
    ]
