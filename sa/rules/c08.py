"""C08 — every random decision follows the weights written in the notation (structural part)."""
from __future__ import annotations

import ast

from ..formula import Canon, equivalent, parse_expr
from ..loader import AnalysisError, norm, own_nodes, src
from ..util import callee_name, calls, generate_roots, kwarg, resolved_sites, strip_attr

LEVEL = "other"
CHOOSER = "core.choose_compatible_weight"


def _is_sum_of(e, base_norm) -> bool:
    """np.sum(X) / X.sum() / sum(X) with X == base"""
    if not isinstance(e, ast.Call):
        return False
    f = e.func
    if isinstance(f, ast.Attribute) and f.attr == "sum":
        if e.args and norm(e.args[0]) == base_norm:  # np.sum(X)
            return True
        if not e.args and norm(f.value) == base_norm:  # X.sum()
            return True
    if isinstance(f, ast.Name) and f.id == "sum" and e.args and norm(e.args[0]) == base_norm:
        return True
    return False


def normalised(flow, p_expr, at):
    """Is p 'a vector divided by its own sum'?  Returns (ok, description)."""
    cfg = flow.cfg
    # (1) name whose single reaching definition is `w /= sum(w)`
    if isinstance(p_expr, ast.Name) and flow.is_local(p_expr.id):
        defs = flow.reaching(p_expr.id, at)
        if len(defs) == 1 and defs[0].kind == "aug" and isinstance(defs[0].extra, ast.Div):
            d = defs[0]
            if _is_sum_of(d.value, norm(ast.Name(id=p_expr.id, ctx=ast.Load()))):
                return True, f"{p_expr.id} /= sum({p_expr.id})"
            return False, f"{p_expr.id} is divided by {src(d.value)}, not by its own sum"
        if len(defs) == 1 and defs[0].kind == "assign":
            return normalised(flow, defs[0].value, defs[0].nid)
        return False, f"{p_expr.id} has {len(defs)} reaching definitions, none a division by its own sum"
    e = p_expr
    if isinstance(e, ast.BinOp) and isinstance(e.op, ast.Div):
        left = flow.expand_ssa(e.left, at)
        right = flow.expand_ssa(e.right, at)
        if _is_sum_of(right, norm(left)):
            return True, f"{src(e.left)} / sum of itself"
        # transitions / weight of the same descriptor (class invariant weight == transitions.sum())
        lb, rb = strip_attr(left, "transitions"), strip_attr(right, "weight")
        if lb is not None and rb is not None and norm(lb) == norm(rb):
            return True, f"transitions / weight of the same descriptor {src(lb)[:50]} (weight == Σ transitions by R-WEIGHT-INVARIANT)"
        return False, f"{src(left)[:60]} / {src(right)[:60]} is not a division by the vector's own sum"
    return False, f"p = {src(e)[:60]}: not a normalised vector"


def choice_sites(eng, reach):
    out = []
    for q in sorted(reach):
        fi = eng.prog.functions[q]
        for c in calls(fi, "choice"):
            out.append((fi, c))
    return out


def check_choice_p(eng, res, reach, rule="R-CHOICE-P", only=None):
    n = 0
    for fi, c in choice_sites(eng, reach):
        if only is not None and fi.qualname not in only:
            continue
        res.unit(fi)
        n += 1
        flow = eng.flow(fi)
        at = flow.cfg.node_of(c)
        p = kwarg(c, "p")
        if p is None and len(c.args) >= 4:
            p = c.args[3]
        role = f"choice:{fi.qualname.split('.')[-1]}"
        if p is None:
            res.ob(rule, fi, role, "random pick passes a probability vector p=", c, False, "rng.choice without p= (uniform pick ignores the weights)")
            continue
        ok, why = normalised(flow, p, at)
        res.ob(rule, fi, role, "p is a weight vector divided by its own sum", c, ok, why)
    return n


def check_chooser(eng, res):
    fi = eng.prog.func(CHOOSER)
    res.unit(fi)
    flow = eng.flow(fi)
    cfg = flow.cfg
    ch = calls(fi, "choice")
    if len(ch) != 1:
        res.ob("R-WEIGHT-PARALLEL", fi, "single-choice", "the chooser makes exactly one random pick", fi.node, False, f"{len(ch)} rng.choice call(s)")
        return
    c = ch[0]
    at = cfg.node_of(c)
    cand = c.args[0] if c.args else None
    p = kwarg(c, "p")
    P0, P1 = fi.params[0], fi.params[1]
    cand_t = flow.expand_ssa(cand, at) if cand is not None else None
    ok = isinstance(cand_t, ast.Call) and callee_name(cand_t) == "get_compatible_bond_descriptor_ids" and [src(a) for a in cand_t.args] == [P0, P1]
    res.ob("R-WEIGHT-PARALLEL", fi, "candidates", "candidates are the compatible indices of the given list for the given descriptor", c, ok,
           f"candidates: {src(cand_t) if cand_t is not None else None}")
    # rng forwarded
    r = flow.expand_ssa(c.func.value, at)
    res.ob("R-WEIGHT-PARALLEL", fi, "uses-rng-param", "the pick uses the generator passed by the caller", c, src(r) == fi.params[2] if len(fi.params) > 2 else False, f"receiver {src(r)}")
    if not isinstance(p, ast.Name):
        res.ob("R-WEIGHT-PARALLEL", fi, "weights-var", "weights are gathered in a local vector", c, False, f"p = {src(p) if p is not None else None}")
        return
    w = p.id
    # definition chain of w
    defs = [d for d in flow.defs if d.name == w]
    kinds = []
    gather_ok = False
    plus_one = None
    for d in defs:
        if d.kind == "assign" and isinstance(d.value, ast.List) and not d.value.elts:
            kinds.append("init")
        elif d.kind == "assign" and isinstance(d.value, ast.Call) and callee_name(d.value) in ("asarray", "array") and src(d.value.args[0]) == w:
            kinds.append("asarray")
        elif d.kind == "aug" and isinstance(d.extra, ast.Add) and isinstance(d.value, ast.Constant) and d.value.value == 1:
            kinds.append("plus-one")
            plus_one = d
        elif d.kind == "aug" and isinstance(d.extra, ast.Div):
            kinds.append("normalise")
        else:
            kinds.append(f"other:{src(d.stmt)[:40]}")
    other = [k for k in kinds if k.startswith("other")]
    res.ob("R-WEIGHT-PARALLEL", fi, "only-equal-rule-between", "between gathering and normalising the only modification is the equal-weights rule", fi.node,
           not other and kinds.count("normalise") == 1 and kinds.count("plus-one") <= 1, f"definitions of {w}: {kinds}")
    apps = [a for a in calls(fi, "append") if src(a.func.value) == w]
    if len(apps) == 1:
        a = apps[0]
        t = flow.expand_ssa(a.args[0], cfg.node_of(a))
        want = f"{P0}[§elem({src(cand_t)})].weight" if cand_t is not None else None
        gather_ok = src(t) == want
        why = f"appends {src(t)}, expected {want}"
    else:
        why = f"{len(apps)} append site(s) for {w}"
    res.ob("R-WEIGHT-PARALLEL", fi, "gather", "entry k of p is the weight of the descriptor whose index is entry k of the candidates (same traversal)",
           apps[0] if apps else fi.node, gather_ok, why)
    # --- equal rule
    rule = "R-EQUAL-RULE"
    if plus_one is None:
        res.ob(rule, fi, "plus-one", "equal (incl. all-zero) weights are made uniform", fi.node, False, "no `weights += 1` under the all-equal condition")
    else:
        conds = cfg.guard_exprs(plus_one.nid)
        can = Canon()
        f = ("and", [can.formula(t, pol) for t, pol in conds])
        candname = src(cand) if cand is not None else "compatible_idx"
        want1 = can.formula(parse_expr(f"len({candname}) > 0 and np.all({w} == {w}[0])"))
        want2 = can.formula(parse_expr(f"len({w}) > 0 and np.all({w} == {w}[0])"))
        ok = equivalent(f, want1)[0] or equivalent(f, want2)[0]
        res.ob(rule, fi, "plus-one-guard", "`+ 1` is applied exactly when there is a candidate and all weights equal the first", plus_one.stmt, ok,
               f"guard: {[src(t) for t, _ in conds]}")
        # the +1 happens after asarray and before normalise
        norm_d = [d for d in defs if d.kind == "aug" and isinstance(d.extra, ast.Div)]
        ok2 = bool(norm_d) and cfg.must_pass(plus_one.nid, norm_d[0].nid) is False and norm_d[0].nid in cfg.reachable([plus_one.nid])
        res.ob(rule, fi, "plus-one-before-normalise", "the rule is applied before normalisation (conditionally)", plus_one.stmt, ok2)
    # errors are not swallowed: the except handler re-raises
    handlers = [n for n in own_nodes(fi.node) if isinstance(n, ast.ExceptHandler)]
    ok = all(any(isinstance(x, ast.Raise) for x in ast.walk(h)) for h in handlers)
    res.ob("R-WEIGHT-PARALLEL", fi, "no-swallow", "a failing pick (e.g. negative weight) is re-raised, never replaced by a default", fi.node, ok)
    rets = [n for n in own_nodes(fi.node) if isinstance(n, ast.Return) and n.value is not None]
    ok = bool(rets) and all(
        isinstance(r.value, ast.Name) and len(flow.reaching(r.value.id, cfg.node_of(r))) == 1
        and flow.reaching(r.value.id, cfg.node_of(r))[0].value is c for r in rets
    )
    res.ob("R-WEIGHT-PARALLEL", fi, "returns-pick", "the chooser returns the picked candidate", fi.node, ok)


# ---------------------------------------------------------------------- pools


def classify_pool(eng, fi, flow, e, at):
    t = flow.expand_ssa(e, at)
    s = src(t)
    if s == "self.end_bonds":
        return "end", t
    if s == "self.repeat_bonds":
        return "repeat", t
    base = strip_attr(t, "bond_descriptors")
    if base is not None:
        if isinstance(base, ast.Call) and callee_name(base) == "MolGen":
            return "new-fragment", t
        ts = eng.infer(e.value if isinstance(e, ast.Attribute) else e, fi)
        if isinstance(base, ast.Name):
            root = base.id.split("#")[0]
            if root in ("self",):
                return f"other:{s}", t
            return "open", t
    return f"other:{s[:60]}", t


def classify_filter(eng, fi, flow, e, at, pool_term):
    if isinstance(e, ast.Constant) and e.value is None:
        return "none"
    t = flow.expand_ssa(e, at)
    s = src(t)
    if isinstance(t, ast.Subscript):
        base = strip_attr(t.value, "bond_descriptors")
        idx = t.slice
        if base is not None and isinstance(idx, ast.Constant) and idx.value == 0 and isinstance(base, ast.Name) and base.id.split("#")[0] in fi.outermost().params:
            return "prefix-open"
        if base is not None and isinstance(idx, ast.Call) and callee_name(idx) == "choose_compatible_weight":
            lst = idx.args[0] if idx.args else None
            flt = idx.args[1] if len(idx.args) > 1 else None
            if lst is not None and norm(lst) == norm(t.value) and isinstance(flt, ast.Constant) and flt.value is None:
                return "picked-open"
    if isinstance(t, ast.Call) and callee_name(t) == "BondDescriptor" and t.args:
        a0 = t.args[0]
        if isinstance(a0, ast.Call) and callee_name(a0) == "_create_compatible_bond_text" and a0.args and src(a0.args[0]) == "self.right_terminal":
            return "inverted-right-terminal"
    return f"other:{s[:60]}"


EXPECTED_POOLS = {
    ("generate", "new-fragment", "prefix-open"): "token hand-over: the new token's descriptors compatible with the prefix's open descriptor",
    ("get_start", "end", "none"): "start without prefix: end-group descriptors, no compatibility filter",
    ("add_repeat_unit", "open", "none"): "growth: open descriptor of the growing molecule by weight",
    ("add_repeat_unit", "repeat", "picked-open"): "growth: partner among repeat-unit descriptors compatible with the picked open descriptor",
    ("finalize_mol", "open", "inverted-right-terminal"): "finalisation: reserve an open descriptor matching the right terminal",
    ("finalize_mol", "open", "none"): "capping: open descriptor by weight",
    ("finalize_mol", "end", "picked-open"): "capping: partner among end-group descriptors compatible with the picked open descriptor",
}


def pool_sites(eng):
    reach = eng.reachable_funcs(generate_roots(eng))
    within = [eng.prog.functions[q] for q in reach]
    out = []
    for fi, c in resolved_sites(eng, CHOOSER, within):
        flow = eng.flow(fi)
        at = flow.cfg.node_of(c)
        pool, pt = classify_pool(eng, fi, flow, c.args[0], at)
        flt = classify_filter(eng, fi, flow, c.args[1], at, pt) if len(c.args) > 1 else "missing"
        out.append((fi, c, pool, flt))
    return out


def _rng_like(eng, fi, name) -> bool:
    """a parameter that every resolved call site of the function fills with the caller's `rng` (or its own generator parameter)"""
    f_ = fi
    while f_ is not None and name not in f_.params:
        f_ = f_.parent
    if f_ is None:
        return False
    idx = f_.params.index(name) - (1 if f_.cls is not None and not f_.is_static else 0)
    n = 0
    for caller in eng.prog.all_functions():
        for c in calls(caller, f_.name):
            if not any(t is f_ for t in eng.repo_callees(caller, c)):
                continue
            a = c.args[idx] if 0 <= idx < len(c.args) else kwarg(c, name)
            n += 1
            if not (isinstance(a, ast.Name) and (a.id == "rng" or (a.id != name or caller is not f_) and _rng_like_cached(eng, caller, a.id))):
                return False
    return n > 0


_RL = {}


def _rng_like_cached(eng, fi, name):
    k = (id(eng), fi.qualname, name)
    if k not in _RL:
        _RL[k] = False  # recursion guard
        _RL[k] = name == "rng" or _rng_like(eng, fi, name)
    return _RL[k]


def check_pools(eng, res, rule="R-POOLS"):
    found = {}
    sites = pool_sites(eng)
    # the phase of a pick is the function it stands in; when the closures were renamed / moved to methods / merged, the
    # name no longer tells the phase: such a site takes the place of a still unclaimed decision point with its (pool, filter)
    named = {(fi.name, pool, flt) for fi, c, pool, flt in sites}
    unclaimed = [k for k in EXPECTED_POOLS if k not in named]
    for fi, c, pool, flt in sites:
        res.unit(fi)
        key = (fi.name, pool, flt)
        if key not in EXPECTED_POOLS:
            alt = [k for k in unclaimed if k[1:] == (pool, flt)]
            if alt:
                key = alt[0]
                unclaimed.remove(key)
        found.setdefault(key, []).append((fi, c))
        ok = key in EXPECTED_POOLS
        res.ob(rule, fi, f"site:{fi.name}:{pool}:{flt}", EXPECTED_POOLS.get(key, "pick with an admissible (pool, filter) combination for its phase"), c, ok,
               f"phase {fi.name}: pool '{pool}', filter '{flt}' is not one of the admissible combinations")
        # rng forwarded
        flow = eng.flow(fi)
        r = flow.expand_ssa(c.args[2], flow.cfg.node_of(c)) if len(c.args) > 2 else kwarg(c, "rng")
        def _is_param(f_, nm):
            while f_ is not None:
                if nm in f_.params:
                    return True
                f_ = f_.parent
            return False

        rng_ok = r is not None and (src(r) == "rng" or (isinstance(r, ast.Name) and _is_param(fi, r.id) and _rng_like(eng, fi, r.id)))
        res.ob(rule, fi, f"site:{fi.name}:{pool}:{flt}:rng", "the pick uses the caller's generator", c, rng_ok, f"rng argument {src(r) if r is not None else None}")
    for key, what in EXPECTED_POOLS.items():
        res.ob(rule, "package", f"present:{':'.join(key)}", f"decision point exists: {what}", "-", key in found and len(found[key]) == 1,
               f"{len(found.get(key, []))} site(s)")
    return len(sites)


def check_transitions(eng, res, rule="R-TRANSITIONS"):
    gen = eng.prog.func("stochastic.Stochastic.generate")
    step = None
    from ..util import with_helpers

    for f in with_helpers(eng, gen):
        if calls(f, "choice"):
            step = f
    if step is None:
        res.ob(rule, gen, "transition-pick", "explicit transition lists are honoured by a dedicated pick", gen.node, False, "no rng.choice in the growth step")
        return
    res.unit(step)
    flow = eng.flow(step)
    cfg = flow.cfg
    c = calls(step, "choice")[0]
    at = cfg.node_of(c)
    # guard: X.transitions is not None
    conds = cfg.guard_exprs(at)
    can = Canon()
    gtxt = [src(flow.expand_ssa(t, cfg.node_of(t))) for t, _ in conds]
    p = kwarg(c, "p")
    pt = flow.expand_ssa(p, at) if p is not None else None
    desc = strip_attr(pt.left, "transitions") if isinstance(pt, ast.BinOp) else None
    from ..lits import lits, lits_text

    GL = set()
    for t, pol in conds:
        if isinstance(t, ast.Constant) and bool(t.value) == pol:
            continue  # `while True:` around the step contributes nothing
        GL |= lits(flow.expand_ssa(t, cfg.node_of(t)), pol)
    want_guard = None
    if desc is not None:
        want_guard = lits(ast.Compare(left=ast.Attribute(value=desc, attr="transitions", ctx=ast.Load()), ops=[ast.IsNot()], comparators=[ast.Constant(value=None)]), True)
    ok = desc is not None and frozenset(GL) == want_guard
    res.ob(rule, step, "guard", "the transition pick is taken exactly when the picked open descriptor carries a list", c, ok, f"guard {gtxt}; p from {src(desc) if desc is not None else None}")
    # same descriptor is the one reacted
    att = calls(step, "attach_other")
    ok = False
    why = "no attach_other in the growth step"
    if att and desc is not None:
        a0 = flow.expand_ssa(att[0].args[0], cfg.node_of(att[0]))
        recv = flow.expand_ssa(att[0].func.value, cfg.node_of(att[0]))
        ok = isinstance(desc, ast.Subscript) and norm(desc.slice) == norm(a0) and src(desc.value) == src(recv) + ".bond_descriptors"
        why = f"list of {src(desc)[:70]}; reacted index {src(a0)[:50]} on {src(recv)[:30]}"
    res.ob(rule, step, "same-descriptor", "the transition list used is that of the very descriptor that is then reacted", c, ok, why)
    # candidates: positions 0..len(prob)-1
    cand = flow.expand_ssa(c.args[0], at) if c.args else None
    ok = cand is not None and pt is not None and src(cand) in (f"range(len({src(pt)}))", f"len({src(pt)})")
    res.ob(rule, step, "positions", "the drawn number is a position in the transition list", c, ok, f"candidates {src(cand) if cand is not None else None}")
    # decoding
    idx_name = None
    st = c
    while st is not None and not isinstance(st, ast.stmt):
        st = getattr(st, "_parent", None)
    if isinstance(st, ast.Assign) and isinstance(st.targets[0], ast.Name):
        idx_name = st.targets[0].id
    dec = None
    dec_body, dec_else = [], []
    for n in own_nodes(step.node):
        if isinstance(n, ast.If) and idx_name:
            want = lits_text(f"{idx_name} < len(self.repeat_bonds)")
            if lits(n.test, True) == want:
                dec, dec_body, dec_else = n, n.body, n.orelse
            elif lits(n.test, False) == want:
                dec, dec_body, dec_else = n, n.orelse, n.body
    if dec is None:
        res.ob(rule, step, "decode", "position < number of repeat descriptors ⇒ repeat pool, else minus that number ⇒ end pool", step.node, False,
               "no test `position < len(self.repeat_bonds)`")
        return
    tb = " ".join(src(s) for s in dec_body)
    eb = " ".join(src(s) for s in dec_else)
    ok_t = "self.repeat_bonds[" + idx_name + "]" in tb and "self.repeat_tokens[self.repeat_bond_token_idx[" + idx_name + "]]" in tb and "end_" not in tb
    res.ob(rule, step, "decode-repeat", "positions below the number of repeat descriptors select that repeat descriptor and its token", dec, ok_t, tb[:120])
    first = dec_else[0] if dec_else else None
    ok_e = (
        isinstance(first, ast.AugAssign) and isinstance(first.op, ast.Sub) and src(first.target) == idx_name and src(first.value) == "len(self.repeat_bonds)"
        and "self.end_bonds[" + idx_name + "]" in eb and "self.end_tokens[self.end_bond_token_idx[" + idx_name + "]]" in eb and "repeat_tokens" not in eb
    )
    if not ok_e and dec_else:
        # the shifted position may be kept in a name of its own (`end_idx = position - len(self.repeat_bonds)`)
        shifted = {norm(parse_expr(f"{idx_name} - len(self.repeat_bonds)"))}
        names = set()
        restored = any(isinstance(x, (ast.Assign, ast.AugAssign)) and any(isinstance(t, ast.Name) and t.id == idx_name for t in (x.targets if isinstance(x, ast.Assign) else [x.target]))
                       for st_ in dec_else for x in ast.walk(st_))
        for st_ in dec_else:
            for x in ast.walk(st_):
                if isinstance(x, ast.Assign) and len(x.targets) == 1 and isinstance(x.targets[0], ast.Name) and norm(x.value) in shifted:
                    names.add(x.targets[0].id)
        subs = [x for st_ in dec_else for x in ast.walk(st_) if isinstance(x, ast.Subscript) and src(x.value) in ("self.end_bonds", "self.end_bond_token_idx")]
        good = lambda e: (isinstance(e, ast.Name) and e.id in names) or norm(e) in shifted
        kinds = {src(x.value) for x in subs}
        tok = [x for st_ in dec_else for x in ast.walk(st_) if isinstance(x, ast.Subscript) and src(x.value) == "self.end_tokens"]
        ok_e = (not restored and kinds == {"self.end_bonds", "self.end_bond_token_idx"} and all(good(x.slice) for x in subs)
                and bool(tok) and all(isinstance(x.slice, ast.Subscript) and src(x.slice.value) == "self.end_bond_token_idx" for x in tok) and "repeat_tokens" not in eb)
    res.ob(rule, step, "decode-end", "other positions, minus the number of repeat descriptors, select that end-group descriptor and its token", dec, ok_e, eb[:140])


def check_terminal_transfer(eng, res, rule="R-TERMINAL-TRANSFER"):
    gen = eng.prog.func("stochastic.Stochastic.generate")
    from ..lits import lits, lits_text
    from ..util import with_nested

    found = {}
    sto = eng.prog.cls("Stochastic")
    cands = []
    for fs in sto.methods.values():
        for m in fs:
            if m.name != "__init__":
                cands += with_nested(m)
    for f in cands:
        fl_ = eng.flow(f)
        for n in own_nodes(f.node):
            if isinstance(n, ast.Assign) and len(n.targets) == 1 and isinstance(n.targets[0], ast.Attribute) and fl_.cfg.has(n):
                t = n.targets[0]
                if t.attr not in ("transitions", "weight"):
                    continue
                at_ = fl_.cfg.node_of(n)
                v = src(fl_.expand_ssa(n.value, at_))
                if v == f"self.left_terminal.{t.attr}":
                    tgt = src(fl_.expand_ssa(t.value, at_))
                    tgt = tgt.split("#")[0] if "#" in tgt and "." not in tgt.split("#", 1)[1] else tgt
                    import re as _re2
                    tgt = _re2.sub(r"#[0-9_]+", "", tgt)
                    found[t.attr] = (f, n, tgt)
    for a in ("weight", "transitions"):
        ok = a in found
        fi = found[a][0] if ok else gen
        if ok:
            res.unit(fi)
        base_ok = ok and found[a][2].endswith(".bond_descriptors[0]")
        res.ob(rule, fi, f"transfer:{a}", f"at a prefix start the left terminal's {a} is copied onto the prefix molecule's single open descriptor",
               found[a][1] if ok else gen.node, ok and base_ok, "not copied" if not ok else f"copied onto {found[a][2]}")
    for a in found:
        f, n, _ = found[a]
        fl = eng.flow(f)
        g = []
        for gn, label in sorted(fl.cfg.guards(fl.cfg.node_of(n))):
            st = fl.cfg.nodes[gn].stmt
            if not isinstance(st, ast.If):
                continue
            if fl.cfg.branch_raises(gn, "F" if label == "T" else "T"):
                continue  # the complement of a validation that raises is context, not a condition
            g += [l for l in lits(fl.expand_shallow(st.test, gn), label == "T")]
        allowed = lits_text("prefix is not None") | lits_text("prefix")
        extra = [x for x in g if x not in allowed]
        res.ob(rule, f, f"transfer:{a}:unconditional", f"the {a} is transferred at every prefix start (a scalar terminal must also reset a list left over from the previous element)",
               n, not extra, f"transfer happens only under {extra}")
    if len(found) == 2:
        ok = found["weight"][2] == found["transitions"][2] and getattr(found["weight"][1], "_parent") is getattr(found["transitions"][1], "_parent")
        res.ob(rule, found["weight"][0], "transfer:same-target", "both fields go to the same descriptor, in the same block", found["weight"][1], ok)


def check_weight_invariant(eng, res, rule="R-WEIGHT-INVARIANT"):
    n = 0
    for fi in eng.prog.all_functions():
        for node in own_nodes(fi.node):
            if isinstance(node, ast.Assign) and len(node.targets) == 1 and isinstance(node.targets[0], ast.Attribute) and node.targets[0].attr == "transitions":
                if isinstance(node.value, ast.Constant) and node.value.value is None:
                    continue
                n += 1
                res.unit(fi)
                tgt = src(node.targets[0].value)
                block = getattr(node, "_parent")
                sibs = []
                for field in ("body", "orelse", "finalbody"):
                    b = getattr(block, field, None)
                    if isinstance(b, list) and node in b:
                        sibs = b
                ws = [s for s in sibs if isinstance(s, ast.Assign) and len(s.targets) == 1 and isinstance(s.targets[0], ast.Attribute)
                      and s.targets[0].attr == "weight" and src(s.targets[0].value) == tgt]
                ok = False
                why = f"no store to {tgt}.weight in the same block"
                if len(ws) == 1:
                    w = ws[0].value
                    sv = strip_attr(node.value, "transitions")
                    wv = strip_attr(w, "weight")
                    if src(w) in (f"{tgt}.transitions.sum()", f"np.sum({tgt}.transitions)"):
                        ok = sibs.index(ws[0]) > sibs.index(node)
                        why = "weight = sum of the list"
                    elif sv is not None and wv is not None and src(sv) == src(wv):
                        ok = True
                        why = f"both fields copied from {src(sv)}"
                    elif isinstance(node.value, ast.Name) and src(w) in (f"{node.value.id}.sum()", f"np.sum({node.value.id})") \
                            and not any(isinstance(x, ast.Name) and x.id == node.value.id and isinstance(x.ctx, ast.Store)
                                        for s_ in sibs[min(sibs.index(ws[0]), sibs.index(node)):max(sibs.index(ws[0]), sibs.index(node)) + 1] for x in ast.walk(s_)):
                        ok = True  # the list is held in a local: `x.transitions = T` and `x.weight = np.sum(T)` for the same T
                        why = f"weight = sum of the local list {node.value.id} stored as the list"
                    else:
                        why = f"weight stored from {src(w)[:50]}, not from the list's sum / the same source descriptor"
                res.ob(rule, fi, f"store:{fi.name}", "every store of a transition list is paired with the store of its sum (or of the source's weight) as weight: weight == Σ transitions",
                       node, ok, why)
    return n


def units_all(eng, res, rule="R-UNITS-ALL"):
    """Every unit written in a stochastic object is a candidate, as often as it is written and in the order written: the
    constructor's two token loops run over the comma split of the repeat / end text itself — no de-duplication,
    re-ordering, filtering or slicing (the descriptor numbers of transition lists count the written units)."""
    res.doc(rule, "repeat units and end groups are taken one per written item, in written order (no de-duplication / filter)")
    fi = eng.prog.func("stochastic.Stochastic.__init__")
    res.unit(fi)
    fl = eng.flow(fi)
    cfg = fl.cfg
    n = 0
    BAD = {"set", "frozenset", "fromkeys", "sorted", "unique", "filter", "reversed", "Counter", "OrderedDict", "dict"}
    for lp in own_nodes(fi.node):
        if not isinstance(lp, ast.For):
            continue
        toks = [c for c in ast.walk(lp) if isinstance(c, ast.Call) and callee_name(c) == "SmilesToken"]
        if not toks or any(isinstance(x, ast.For) and x is not lp and any(t in list(ast.walk(x)) for t in toks) for x in ast.walk(lp)):
            continue
        n += 1
        it = fl.expand(lp.iter, cfg._foriter[id(lp)], depth=2)
        txt = src(it)
        calls_ = [callee_name(c) for c in ast.walk(it) if isinstance(c, ast.Call)]
        split = [c for c in ast.walk(it) if isinstance(c, ast.Call) and callee_name(c) == "split" and c.args and isinstance(c.args[0], ast.Constant) and c.args[0].value == ","]
        sliced = any(isinstance(x, ast.Subscript) and any(y in split for y in ast.walk(x.value)) for x in ast.walk(it))
        filt = [g for c in ast.walk(it) if isinstance(c, (ast.GeneratorExp, ast.ListComp)) for g in c.generators if g.ifs]
        bad = sorted(set(calls_) & BAD)
        ok = len(split) == 1 and not bad and not sliced and not filt
        res.ob(rule, fi, f"units-loop@{n}", "the token loop runs over every item of the comma split of the written text, once each, in order", lp, ok,
               f"iterates {txt[:100]}" + (f"; uses {bad}" if bad else "") + ("; sliced" if sliced else "") + ("; filtered" if filt else ""))
        # and every non-empty item becomes a token: the constructor call is guarded by the item's non-emptiness only
        from ..lits import lits
        g = set()
        for t, pol in cfg.guard_exprs(cfg.node_of(toks[0])):
            st = getattr(t, "_parent", None)
            if isinstance(st, ast.If) and within_node(st, lp):
                g |= set(lits(t, pol))
        okg = all(l[0] not in ("num", "complex", "opaque", "const") and l[0][0] == "truthy" and l[1] is True for l in g) and len(g) <= 1
        res.ob(rule, fi, f"units-guard@{n}", "every non-empty item becomes a token (no other condition)", toks[0], okg, f"{len(g)} condition(s)")
    res.floor(rule, n, 2)


def within_node(n, anc):
    while n is not None:
        if n is anc:
            return True
        n = getattr(n, "_parent", None)
    return False


def check(eng, res):
    res.doc("R-CHOICE-P", "every rng.choice on the generation path passes p=, p being a vector divided by its own sum")
    res.doc("R-WEIGHT-PARALLEL", "candidates and weights produced by the same traversal; only the equal-weights rule in between")
    res.doc("R-EQUAL-RULE", "+1 exactly when there is a candidate and all weights equal the first")
    res.doc("R-POOLS", "partner pool and filter per phase (7 decision points) agree with the notation's semantics")
    res.doc("R-TRANSITIONS", "transition list of the reacted descriptor; positions decoded as repeat then end descriptors")
    res.doc("R-TERMINAL-TRANSFER", "left terminal's weight and transitions copied onto the prefix's open descriptor")
    res.doc("R-INDEX-SPACE", "the indices handed to attach_other are the drawn ones, in the lists they were drawn from (shared with C04)")
    res.doc("R-RESERVE-PAIR", "the descriptor reserved for the right terminal is removed from the open list while capping picks are made (shared with C06)")
    res.doc("R-WEIGHT-INVARIANT", "weight == Σ transitions wherever a transition list is stored")
    reach = eng.reachable_funcs(generate_roots(eng))
    molpath = {q for q in reach if not q.startswith("system.")}
    n = check_choice_p(eng, res, reach, only=molpath)
    res.floor("R-CHOICE-P", n, 2)
    check_chooser(eng, res)
    ns = check_pools(eng, res)
    res.floor("R-POOLS", ns, 7)
    check_transitions(eng, res)
    check_terminal_transfer(eng, res)
    # the drawn descriptors are the ones that react (index spaces at the attach sites, from C04) and the descriptor kept for
    # the right terminal is really taken out of the capping picks (from C06)
    from . import c04, c06

    sub = type(res)(res.prop)
    c04.index_space(eng, sub)
    c06.reserve_pair(eng, sub)
    res.obligations += sub.obligations
    nw = check_weight_invariant(eng, res)
    res.floor("R-WEIGHT-INVARIANT", nw, 2)
    units_all(eng, res)
    res.assumptions += ["numpy Generator.choice(a, p=p) draws a[i] with probability p[i]", "R-WEIGHT-DEF (C02) and R-LOCKSTEP (C04) hold"]
    res.not_decided += ["the resulting molecule probabilities", "long-run frequencies"]
