"""C01 — canonical notation round-trips (structural clauses of printers and parsers)."""
from __future__ import annotations

import ast

from ..formula import Canon, equivalent, parse_expr
from ..guards import Rejections
from ..loader import AnalysisError, ClassInfo, FuncInfo, norm, own_nodes, src
from ..template import Printer, erase, has_bar, normalise, show
from ..util import callee_name, calls, with_nested
from ..lits import guard_lits, has, lits_text
from . import c09, c15


def cond_lits(conds):
    """literal set of a printer path's conditions [(text, polarity)]"""
    out = set()
    for c, pol in conds:
        out |= lits_text(c, pol)
    return frozenset(out)

LEVEL = "other"


def printers(eng):
    out = []
    for ci in eng.prog.subclasses("BigSMILESbase"):
        m = ci.method("generate_string")
        if m is None:
            continue
        # skip abstract declarations
        if any(isinstance(d, ast.Name) and d.id == "abstractmethod" for d in m.node.decorator_list):
            continue
        out.append((ci, m))
    return out


def ext_thread(eng, res, rule="R-EXT-THREAD"):
    n = 0
    for ci, m in printers(eng):
        res.unit(m)
        ext = m.params[1]
        for c in calls(m, "generate_string"):
            n += 1
            a = c.args[0] if c.args else None
            for k in c.keywords:
                if k.arg == "extension":
                    a = k.value
            ok = isinstance(a, ast.Name) and a.id == ext and not eng.flow(m).is_local(ext) or (isinstance(a, ast.Name) and a.id == ext and all(
                d.kind == "param" for d in eng.flow(m).reaching(ext, eng.flow(m).cfg.node_of(c))))
            res.ob(rule, m, f"child:{src(c.func.value)}", "a child is printed with exactly the caller's `extension` flag", c, ok, f"flag passed: {src(a) if a is not None else None}")
        # str(child) / an f-string hole {child} prints a notation object with extensions regardless of the flag
        notation = {c.name for c in eng.prog.subclasses("BigSMILESbase", strict=False)}
        holes = [(c.args[0], c) for c in calls(m, "str") if c.args]
        holes += [(v.value, v) for js in own_nodes(m.node) if isinstance(js, ast.JoinedStr) for v in js.values if isinstance(v, ast.FormattedValue)]
        for e, site in holes:
            ts = eng.infer(e, m)
            kids = sorted(t[1] for t in ts if t[0] == "inst" and t[1] in notation)
            if isinstance(e, ast.Name) and e.id == "self":
                kids = ["self"]
            n += 1
            res.ob(rule, m, f"str:{src(e)[:40]}", "no child object is printed through str() / an f-string hole (both always print extensions)", site, not kids,
                   f"{src(e)} is a {'/'.join(kids)} printed through its __str__: the caller's flag is ignored")
    # __str__ = generate_string(True)
    base = eng.prog.cls("BigSMILESbase")
    s = base.method("__str__")
    ok = s is not None and [src(r.value) for r in own_nodes(s.node) if isinstance(r, ast.Return)] == ["self.generate_string(True)"]
    res.ob(rule, s or base.qualname, "str-is-canonical", "__str__ is generate_string(True) (the canonical string)", (s.node if s else "-"), ok)
    over = [c.name for c in eng.prog.subclasses("BigSMILESbase", strict=True) if c.method("__str__") is not None]
    res.ob(rule, "package", "str-not-overridden", "no notation class overrides __str__", "-", not over, f"overridden in {over}")
    return n


def ext_erase(eng, res, rule="R-EXT-ERASE"):
    n = 0
    for ci, m in printers(eng):
        n += 1
        P = Printer(m)
        t_true = P.run(True)
        t_false = P.run(False)
        erased = {tuple(erase(list(p))) for p, _ in t_true}
        plain = {tuple(normalise(list(p))) for p, _ in t_false}
        # trims are printing details: compare with trims kept (they must survive identically outside |...|)
        ok = erased == plain
        res.ob(rule, m, "erase", "printing without extensions == the canonical template with every |…| run erased (children by induction)", m.node, ok,
               f"erase(T(True)) = {[show(p) for p in sorted(erased)]} ; T(False) = {[show(p) for p in sorted(plain)]}")
        bars = [show(p) for p, _ in t_false if has_bar(p)]
        res.ob(rule, m, "no-bar", "no piece printed without extensions contains '|'", m.node, not bars, f"{bars}")
        # raw holes of the extension-free form must also be present in the canonical form (nothing dropped)
        # trim == separator length
        bad = []
        for p, _ in t_true + t_false:
            for i, pc in enumerate(p):
                if pc[0] == "T":
                    prev = p[i - 1] if i else None
                    if not (prev is not None and prev[0] == "L" and all(a and a[-1][0] == "C" and len(a[-1][1]) == pc[1] for a in prev[2])):
                        bad.append(show(p))
        res.ob(rule, m, "trim", "a trailing-separator trim removes exactly the separator the preceding loop appends", m.node, not bad, f"{bad[:2]}")
    return n


def weight_print(eng, res, rule="R-PRINT-COVERS"):
    """The weight/transition run of a descriptor is printed exactly when it differs from the parser's defaults."""
    m = eng.prog.cls("BondDescriptor").method("generate_string")
    P = Printer(m)
    t = P.run(True)
    with_bar = [(p, c) for p, c in t if has_bar(p)]
    without = [(p, c) for p, c in t if not has_bar(p)]
    # condition under which NO extension is printed must be: transitions is None and weight == 1.0
    can = Canon()
    fs = []
    for p, conds in without:
        fs.append(("and", [can.formula(parse_expr(c), pol) for c, pol in conds]))
    got = ("or", fs) if fs else ("const", False)
    want = can.formula(parse_expr("self.transitions is None and self.weight == 1.0"))
    ok = equivalent(got, want)[0]
    res.ob(rule, m, "weight-run-condition", "a descriptor prints no |…| run only when it has no transition list and weight 1 (the parser's defaults)", m.node, ok,
           f"printed without extension under {[c for _, c in without]}")
    # list form prints every entry of the list; scalar form prints the weight
    ok_list = any(any(pc[0] == "L" and pc[1] == "self.transitions" for pc in p) for p, _ in with_bar)
    ok_scalar = any(any(pc == ("H", "self.weight") for pc in p) and has(cond_lits(conds), "self.transitions is None") for p, conds in with_bar)
    ok_list = ok_list and all(has(cond_lits(conds), "self.transitions is not None") for p, conds in with_bar if any(pc[0] == "L" and pc[1] == "self.transitions" for pc in p))
    res.ob(rule, m, "weight-run-content", "a list weight prints every entry of the list; otherwise the scalar weight is printed", m.node, ok_list and ok_scalar)
    # stochastic object prints its distribution whenever it has one; molecule its mixture
    for cname, attr in (("Stochastic", "distribution"), ("Molecule", "mixture")):
        mm = eng.prog.cls(cname).method("generate_string")
        tt = Printer(mm).run(True)
        ok = True
        why = ""
        for p, conds in tt:
            printed = any(pc[0] == "K" and pc[1] == f"self.{attr}" for pc in p)
            L = cond_lits(conds)
            cond_true = has(L, f"self.{attr}") or has(L, f"self.{attr} is not None")
            cond_false = has(L, f"self.{attr}", False) or has(L, f"self.{attr} is None")
            if printed != cond_true or (not printed and not cond_false):
                ok = False
                why = f"path {show(p)} under {conds}"
        res.ob(rule, mm, f"{attr}-printed", f"{cname} prints its {attr} exactly when it has one", mm.node, ok, why)
    # every element / token / terminal is printed: loops over the full lists
    st = eng.prog.cls("Stochastic").method("generate_string")
    tt = Printer(st).run(True)
    need = ["self.left_terminal", "self.right_terminal"]
    ok = all(all(any(pc[0] == "K" and pc[1] == x for pc in p) for x in need) for p, _ in tt)
    loops_ok = all(any(pc[0] == "L" and pc[1] == "self.repeat_tokens" for pc in p) for p, _ in tt)
    end_ok = all(any(pc[0] == "L" and pc[1] == "self.end_tokens" for pc in p) == has(cond_lits(conds), "len(self.end_tokens) > 0") for p, conds in tt)
    res.ob(rule, st, "stochastic-complete", "both terminals, every repeat token and (when present) every end token are printed", st.node, ok and loops_ok and end_ok)
    for cname, lst in (("Molecule", "self._elements"), ("System", "self._molecules"), ("SmilesToken", "self.elements")):
        mm = eng.prog.cls(cname).method("generate_string")
        tt = Printer(mm).run(True)
        ok = all(any(pc[0] == "L" and pc[1] == lst for pc in p) for p, _ in tt)
        res.ob(rule, mm, f"{cname}-complete", f"{cname} prints every entry of {lst}, in order", mm.node, ok, f"{[show(p) for p, _ in tt]}")


def mix_form(eng, res, rule="R-MIX-FORM"):
    ci = eng.prog.cls("Mixture")
    m = ci.method("generate_string")
    res.unit(m)
    t = Printer(m).run(True)
    pct = [(p, c) for p, c in t if any(pc[0] == "C" and "%" in pc[1] for pc in p)]
    plain = [(p, c) for p, c in t if not any(pc[0] == "C" and "%" in pc[1] for pc in p)]
    ok = len(pct) == 1 and len(plain) == 1
    why = f"{len(pct)} percent path(s), {len(plain)} plain path(s)"
    if ok:
        pc_, cc = pct[0]
        pp, pcnd = plain[0]
        ok = cond_lits(cc) == lits_text("self.absolute_mass is None") and ("H", "self.relative_mass") in pc_ and ("H", "self.absolute_mass") in pp \
            and cond_lits(pcnd) == lits_text("self.absolute_mass is not None")
        why = f"percent form under {cc}: {show(pc_)}; plain form under {pcnd}: {show(pp)}"
    res.ob(rule, m, "writer", "the % form is printed exactly when no absolute mass is known (with the relative mass), the plain form otherwise (with the absolute mass)", m.node, ok, why)
    init = ci.method("__init__")
    res.unit(init)
    flow = eng.flow(init)
    cfg = flow.cfg
    st_rel = [n for n in own_nodes(init.node) if isinstance(n, ast.Assign) and src(n.targets[0]) == "self._relative_mass" and not (isinstance(n.value, ast.Constant) and n.value.value is None)]
    st_abs = [n for n in own_nodes(init.node) if isinstance(n, ast.Assign) and src(n.targets[0]) == "self._absolute_mass" and not (isinstance(n.value, ast.Constant) and n.value.value is None)]
    ok = len(st_rel) == 1 and len(st_abs) == 1
    why = f"{len(st_rel)} relative store(s), {len(st_abs)} absolute store(s)"
    if ok:
        gr = guard_lits(flow, st_rel[0])
        ga = guard_lits(flow, st_abs[0])
        ok = has(gr, "'%' in self._raw_text") and has(ga, "'%' not in self._raw_text")
        vr = src(flow.expand_ssa(st_rel[0].value, cfg.node_of(st_rel[0])))
        va = src(flow.expand_ssa(st_abs[0].value, cfg.node_of(st_abs[0])))
        ok = ok and "float(" in vr and "float(" in va and "%" in vr
        why = f"relative under {gr} from {vr}; absolute under {ga} from {va}"
    res.ob(rule, init, "reader", "the reader discriminates on the same character: '%' present ⇒ relative mass, else absolute mass", init.node, ok, why)
    # accessors return the stored fields
    for nm in ("absolute_mass", "relative_mass", "system_mass"):
        f = ci.method(nm)
        ok = f is not None and [src(r.value) for r in own_nodes(f.node) if isinstance(r, ast.Return)] == [f"self._{nm}"]
        res.ob(rule, f or ci.qualname, f"accessor:{nm}", f"`{nm}` reads the stored field", (f.node if f else "-"), ok)


def iter_types(eng, res, rule="R-ITER"):
    n = 0
    for fi in eng.prog.all_functions():
        for node in own_nodes(fi.node):
            its = []
            if isinstance(node, ast.For):
                its.append(node.iter)
            elif isinstance(node, (ast.ListComp, ast.SetComp, ast.GeneratorExp, ast.DictComp)):
                its += [g.iter for g in node.generators]
            for it in its:
                ts = eng.infer(it, fi)
                if len(ts) == 1:
                    t = next(iter(ts))
                    if t[0] == "inst" and t[1] in eng.prog.classes:
                        ci = eng.prog.classes[t[1]]
                        iterable = any(eng.prog.lookup_method(ci, m) for m in ("__iter__", "__getitem__")) or any(
                            b.split(".")[-1] not in eng.prog.classes and b not in ("ABC", "object") for c in eng.prog.mro(ci) for b in c.base_names)
                        n += 1
                        res.unit(fi)
                        res.ob(rule, fi, f"iter:{src(it)[:50]}", "an iterated value of definite repository type is iterable", it, iterable,
                               f"{src(it)} is definitely a {t[1]}, which defines neither __iter__ nor __getitem__: TypeError whenever this line is reached")
    return n


def lookahead(eng, res, rule="R-LOOKAHEAD"):
    fi = eng.prog.func("molecule.Molecule.__init__")
    res.unit(fi)
    flow = eng.flow(fi)
    cfg = flow.cfg
    found = 0
    for n in own_nodes(fi.node):
        if isinstance(n, ast.Subscript) and isinstance(n.ctx, ast.Load) and isinstance(n.slice, ast.Name) and isinstance(n.value, ast.Name):
            defs = flow.reaching(n.slice.id, cfg.node_of(n))
            if any(d.kind == "assign" and "find('}') + 1" in src(d.value) for d in defs):
                found += 1
                ok = False
                why = "index can equal len(text) when the stochastic object ends the text"
                p = getattr(n, "_parent")
                # climb to the enclosing boolean and
                cur = n
                while p is not None and not isinstance(p, ast.stmt):
                    if isinstance(p, ast.BoolOp) and isinstance(p.op, ast.And):
                        idx = next(i for i, v in enumerate(p.values) if _contains(v, cur))
                        for v in p.values[:idx]:
                            can = Canon()
                            try:
                                f = can.formula(v)
                                w = can.formula(parse_expr(f"{n.slice.id} < len({n.value.id})"))
                                if equivalent(f, w)[0]:
                                    ok = True
                            except AnalysisError:
                                pass
                    cur = p
                    p = getattr(p, "_parent", None)
                if not ok:
                    for t, pol in cfg.guard_exprs(cfg.node_of(n)):
                        can = Canon()
                        try:
                            f = can.formula(t, pol)
                            w = can.formula(parse_expr(f"{n.slice.id} < len({n.value.id})"))
                            if equivalent(f, w)[0]:
                                ok = True
                        except AnalysisError:
                            pass
                    for a in _ancestors(n):
                        if isinstance(a, ast.Try) and any(h.type is None or "IndexError" in src(h.type) for h in a.handlers):
                            ok = True
                res.ob(rule, fi, "distribution-lookahead", "the look-ahead for a distribution after '}' is bounded by the text length", n, ok, why)
    if found == 0:
        # slice / startswith spellings need no bound
        alt = [c for c in calls(fi, "startswith") if "'|'" in src(c)]
        sl = [n for n in own_nodes(fi.node) if isinstance(n, ast.Subscript) and isinstance(n.slice, ast.Slice) and "'|'" in src(getattr(n, "_parent"))]
        res.ob(rule, fi, "distribution-lookahead", "the look-ahead for a distribution after '}' cannot index past the end", fi.node, bool(alt or sl),
               "look-ahead not found in a recognised form")
    return max(found, 1)


def _contains(a, b) -> bool:
    return any(x is b for x in ast.walk(a))


def _ancestors(n):
    n = getattr(n, "_parent", None)
    while n is not None:
        yield n
        n = getattr(n, "_parent", None)


def insert_accept(eng, res, rule="R-INSERT-ACCEPT"):
    fi = eng.prog.func("bond._create_compatible_bond_text")
    res.unit(fi)
    flow = eng.flow(fi)
    cfg = flow.cfg
    b = fi.params[0]
    rets = [r for r in own_nodes(fi.node) if isinstance(r, ast.Return) and r.value is not None]
    ok = len(rets) == 1
    sym_var = None
    why = f"{len(rets)} return(s)"
    if ok:
        v = flow.expand_ssa(rets[0].value, cfg.node_of(rets[0]))
        holes = []
        consts = []
        if isinstance(v, ast.JoinedStr):
            for x in v.values:
                if isinstance(x, ast.FormattedValue):
                    holes.append(src(x.value))
                else:
                    consts.append(x.value)
        ok = len(holes) == 3 and holes[0] == f"{b}.preceding_characters" and holes[2] == f"{b}.descriptor_id" and consts == ["[", "]"]
        why = f"inserted text = {src(v)[:120]}"
        sym_var = holes[1] if len(holes) == 3 else None
    res.ob(rule, fi, "insert-template", "the inserted descriptor text is <preceding characters>[<symbol><id>] of the given descriptor (id and bond-order characters copied verbatim)",
           fi.node, ok, why)
    # symbol table: $->$, <-><, >->>  evaluated over the three symbols ("<" in str(bond)  <=>  symbol == "<")
    table = {}
    body = [s for s in fi.node.body if not (isinstance(s, ast.Expr) and isinstance(s.value, ast.Constant))]
    okt = True
    for sym in ("$", "<", ">"):
        val = None
        for s in body:
            if isinstance(s, ast.Assign) and len(s.targets) == 1 and isinstance(s.targets[0], ast.Name) and isinstance(s.value, ast.Constant) and isinstance(s.value.value, str) and len(s.value.value) == 1:
                val = s.value.value
                var = s.targets[0].id
            elif isinstance(s, ast.If) and len(s.body) == 1 and isinstance(s.body[0], ast.Assign) and isinstance(s.body[0].value, ast.Constant):
                t = s.test
                hit = None
                if isinstance(t, ast.Compare) and len(t.ops) == 1 and isinstance(t.left, ast.Constant):
                    if isinstance(t.ops[0], ast.In) and src(t.comparators[0]) in (f"str({b})", f"{b}.generate_string(False)", f"{b}.generate_string(True)"):
                        hit = t.left.value == sym
                    elif isinstance(t.ops[0], ast.Eq) and src(t.comparators[0]) == f"{b}.descriptor":
                        hit = t.left.value == sym
                elif isinstance(t, ast.Compare) and len(t.ops) == 1 and src(t.left) == f"{b}.descriptor" and isinstance(t.ops[0], ast.Eq) and isinstance(t.comparators[0], ast.Constant):
                    hit = t.comparators[0].value == sym
                if hit is None:
                    okt = False
                elif hit:
                    val = s.body[0].value.value
        table[sym] = val
    direct = sym_var == f"{b}.descriptor"
    res.ob(rule, fi, "insert-symbol", "the inserted symbol is the given descriptor's own symbol ($→$, <→<, >→>)", fi.node, direct or (okt and table == {"$": "$", "<": "<", ">": ">"}),
           f"symbol table {table}" if not direct else "")
    # the acceptance predicate compares exactly the copied fields (decided as role mol-connector-descriptor)
    role = [r for r in c15.ROLES if r[0] == "mol-connector-descriptor"]
    c15.check_roles(eng, res, role, rule=rule)
    # the accepted-against descriptor is the one insertion copies from: previous element's right terminal
    mol = eng.prog.func("molecule.Molecule.__init__")
    res.unit(mol)
    fl = eng.flow(mol)
    ins = [c for c in calls(mol, "_create_compatible_bond_text")]
    srcs = sorted({src(fl.expand(c.args[0], fl.cfg.node_of(c), depth=3)) for c in ins})
    ok = len(ins) >= 3 and all(s.endswith(("left_terminal", "right_terminal", "bond_descriptors[-1]")) or (s.startswith("§phi(") and "right_terminal" in s) for s in srcs)
    res.ob(rule, mol, "insert-sources", "descriptors are inserted from the neighbouring stochastic object's terminal (previous right terminal / next left terminal)", mol.node,
           ok, f"sources: {[x[-60:] for x in srcs]}")


# ---------------------------------------------------------------------------------------------- R-INSERT-COND
class _Subst(ast.NodeTransformer):
    """len(self._elements) -> __n ; len(<local>.bond_descriptors) -> __d ; a local with constant definitions -> its
    conditional-constant term."""

    def __init__(self, fl, at):
        self.fl, self.at, self.unknown = fl, at, []

    def visit_Call(self, n):
        if isinstance(n.func, ast.Name) and n.func.id == "len" and len(n.args) == 1:
            a = n.args[0]
            if isinstance(a, ast.Attribute) and a.attr == "_elements" and isinstance(a.value, ast.Name) and a.value.id == "self":
                return ast.Name("__n", ast.Load())
            if isinstance(a, ast.Attribute) and a.attr == "bond_descriptors" and isinstance(a.value, ast.Name) and self.fl.is_local(a.value.id):
                return ast.Name("__d", ast.Load())
        return self.generic_visit(n)

    def boolean(self, e):
        """emptiness written without len() in a boolean position: `if self._elements`, `if not token.bond_descriptors`"""
        if isinstance(e, ast.BoolOp):
            e.values = [self.boolean(v) for v in e.values]
            return e
        if isinstance(e, ast.UnaryOp) and isinstance(e.op, ast.Not):
            e.operand = self.boolean(e.operand)
            return e
        if isinstance(e, ast.Attribute) and isinstance(e.value, ast.Name):
            if e.attr == "_elements" and e.value.id == "self":
                return ast.Name("__n", ast.Load())
            if e.attr == "bond_descriptors" and self.fl.is_local(e.value.id):
                return ast.Name("__d", ast.Load())
        return e

    def visit_IfExp(self, n):
        n.test = self.boolean(n.test)
        return self.generic_visit(n)

    def visit_Name(self, n):
        if n.id in ("__n", "__d") or not self.fl.is_local(n.id):
            return n
        t = _const_term(self.fl, n.id, self.at)
        if t is None:
            self.unknown.append(n.id)
            return n
        return _Subst(self.fl, self.at).visit(t)


def _const_term(fl, name, at):
    """Conditional-constant term of a local all of whose reaching definitions are constants (or conditional
    expressions): the definition that dominates the others is the default, the others apply under their own
    If-guards.  None when the local is anything else."""
    import copy

    cfg = fl.cfg
    defs = fl.reaching(name, at)
    if not defs or any(d.kind != "assign" or d.value is None for d in defs):
        return None
    for d in defs:
        v = d.value
        if not (isinstance(v, ast.Constant) or (isinstance(v, ast.IfExp) and isinstance(v.body, ast.Constant) and isinstance(v.orelse, ast.Constant))):
            return None
    base = [d for d in defs if all(cfg.must_pass(d.nid, o.nid) for o in defs)]
    if len(base) != 1:
        return None
    base = base[0]
    term = copy.deepcopy(base.value)
    g0 = cfg.guards(base.nid)
    rest = sorted([d for d in defs if d is not base], key=lambda d: d.nid)
    for d in rest:
        tests = []
        for gn, label in sorted(cfg.guards(d.nid) - g0):
            st = cfg.nodes[gn].stmt
            if not isinstance(st, ast.If):
                return None
            t = copy.deepcopy(cfg.test_of(st, gn))
            tests.append(t if label == "T" else ast.UnaryOp(ast.Not(), t))
        if not tests:
            return None
        cond = tests[0] if len(tests) == 1 else ast.BoolOp(ast.And(), tests)
        term = ast.IfExp(cond, copy.deepcopy(d.value), term)
    return ast.fix_missing_locations(term)


def insert_conditions(eng, res, rule="R-INSERT-COND"):
    """A-FINITE over (n = number of elements parsed so far, d = descriptors the token carries): the constructor
    inserts an incoming descriptor iff n > 0 and d == 0, and an outgoing one iff d < (1 if n == 0 else 2) — so a token
    ends with exactly one descriptor per neighbour, and a canonical string (which carries them all) gets none."""
    import copy
    from .c03 import _ev

    mol = eng.prog.func("molecule.Molecule.__init__")
    res.unit(mol)
    fl = eng.flow(mol)
    cfg = fl.cfg
    n_sites = 0
    for c in calls(mol, "_create_compatible_bond_text"):
        nid = cfg.node_of(c)
        arg = src(fl.expand(c.args[0], nid, depth=3))
        outgoing = "left_terminal" in arg
        conj, skipped, bad = [], [], []
        for gn, label in sorted(cfg.guards(nid)):
            st = cfg.nodes[gn].stmt
            if not isinstance(st, ast.If):
                continue
            sub = _Subst(fl, gn)
            t = sub.visit(sub.boolean(copy.deepcopy(cfg.test_of(st, gn))))
            names = {x.id for x in ast.walk(t) if isinstance(x, ast.Name)}
            if names and names <= {"__n", "__d"}:
                conj.append((t, label == "T"))
            elif names & {"__n", "__d"}:
                bad.append(src(t))
            else:
                skipped.append(src(t))
        table = {}
        why = ""
        try:
            for n in range(4):
                for d in range(4):
                    env = {"__n": n, "__d": d}
                    table[(n, d)] = all(bool(_ev(t, env)) == pol for t, pol in conj)
        except AnalysisError as e:
            bad.append(str(e))
        if outgoing:
            want = {(n, d): d < (1 if n == 0 else 2) for n in range(4) for d in range(4)}
            text = "an outgoing descriptor (towards the next object) is inserted iff the token carries fewer than 1 (first element) / 2 (connector) descriptors"
        else:
            want = {(n, d): n > 0 and d == 0 for n in range(4) for d in range(4)}
            text = "an incoming descriptor (towards the previous element) is inserted iff there is a previous element and the token carries none"
        ok = not bad and table == want
        if bad:
            why = f"condition mixes the counts with other terms: {bad[:2]}"
        elif not ok:
            diff = sorted(k for k in want if table.get(k) != want[k])
            why = f"differs for (elements so far, descriptors on the token) = {diff[:4]}; conditions: {[('' if p else 'not ') + src(t) for t, p in conj]}"
        res.ob(rule, mol, f"insert-cond:{'outgoing' if outgoing else 'incoming'}@{'loop' if cfg.enclosing_loops(c) else 'tail'}", text, c, ok, why)
        n_sites += 1
    res.floor(rule, n_sites, 3)
    return n_sites


# ---------------------------------------------------------------------------------------------- R-PRINT-EXACT
def print_exact(eng, res, rule="R-PRINT-EXACT"):
    """Numbers written into notation text are written with Python's shortest round-tripping repr: an f-string hole
    without format specification (or str()).  A format specification, round() or a %-format shortens the number, and
    the text no longer denotes the value the object holds (re-parsing gives another mixture / weight / parameter)."""
    notation = {c.name for c in eng.prog.subclasses("BigSMILESbase", strict=False)}
    n = 0
    for q, fi in sorted(eng.prog.functions.items()):
        sites = []
        if fi.name == "generate_string":
            sites = [js for js in own_nodes(fi.node) if isinstance(js, ast.JoinedStr)]
            extra = [c for c in own_nodes(fi.node) if isinstance(c, ast.Call) and callee_name(c) in ("round", "format")]
        else:
            extra = []
            for c in own_nodes(fi.node):
                if isinstance(c, ast.Call) and any(getattr(t, "name", None) in notation for t in eng.resolve_call(fi, c) if not isinstance(t, tuple)):
                    for a in list(c.args) + [k.value for k in c.keywords]:
                        t = eng.flow(fi).expand(a, eng.flow(fi).cfg.node_of(c), depth=4) if not isinstance(a, ast.JoinedStr) else a
                        sites += [js for js in ast.walk(t) if isinstance(js, ast.JoinedStr)]
                        extra += [x for x in ast.walk(t) if isinstance(x, ast.Call) and callee_name(x) in ("round", "format")]
        if not sites and not extra:
            continue
        bad = []
        for js in sites:
            for v in js.values:
                if isinstance(v, ast.FormattedValue) and (v.format_spec is not None or v.conversion not in (-1, 115, 114)):
                    bad.append(f"{{{src(v.value)}:{src(v.format_spec)[2:-1] if v.format_spec is not None else '!' + chr(v.conversion)}}}")
        bad += [src(x)[:40] for x in extra]
        n += 1
        res.unit(fi)
        res.ob(rule, fi, "full-precision", "values written into notation text are written in full (no format specification, no rounding)", fi.node, not bad, f"shortened: {bad}")
    res.floor(rule, n, 10)
    return n


def check(eng, res):
    res.doc("R-EXT-THREAD", "children are printed with exactly the caller's extension flag; __str__ = generate_string(True)")
    res.doc("R-EXT-ERASE", "A-TEMPLATE: T(False) == erase(T(True)) for all 13 printers; no '|' without extensions; trims match separators")
    res.doc("R-PRINT-COVERS", "what the parser reads beyond defaults is printed: weight/transition run condition, distribution, mixture, all list entries")
    res.doc("R-DIST-TABLE", "distribution keyword: writer == reader == dispatch")
    res.doc("R-DIST-PARAM-ORDER", "distribution parameters printed in the order they are read")
    res.doc("R-PARAM-ROLE", "the value printed for a distribution parameter is the very term fed to the sampler (re-parsing the canonical string denotes the same law)")
    res.doc("R-MIX-FORM", "mixture % form / plain form: writer branch and reader discriminator agree")
    res.doc("R-ITER", "no iteration over a value of definite non-iterable repository type")
    res.doc("R-LOOKAHEAD", "the distribution look-ahead after '}' is bounded")
    res.doc("R-INSERT-ACCEPT", "descriptors the constructor inserts satisfy the predicate it applies to user-written ones")
    n = ext_thread(eng, res)
    res.floor("R-EXT-THREAD", n, 9)
    n = ext_erase(eng, res)
    res.floor("R-EXT-ERASE", n, 13)
    weight_print(eng, res)
    n = c09.dist_table(eng, res)
    res.floor("R-DIST-TABLE", n, 6)
    n = c09.param_order(eng, res)
    res.floor("R-DIST-PARAM-ORDER", n, 6)
    c09.param_role(eng, res)  # the printed value is the value that reaches the sampler (same object after re-parse)
    mix_form(eng, res)
    iter_types(eng, res)
    lookahead(eng, res)
    insert_accept(eng, res)
    res.doc("R-INSERT-COND", "descriptors are inserted exactly when the token lacks the one for that neighbour (finite table over element count x descriptor count)")
    insert_conditions(eng, res)
    # an inserted descriptor must denote what the same text denotes when it is read back: it is attached by parsing text,
    # never by constructing a descriptor with an atom of the caller's choosing (shared with C02)
    from . import c02 as _c02

    sub2 = type(res)(res.prop)
    _c02.descriptor_origin(eng, sub2)
    res.obligations += sub2.obligations
    res.doc("R-DESCR-ORIGIN", "descriptors that bind an atom are constructed by the token scanner only (an inserted descriptor is parsed like a written one; shared with C02)")
    res.doc("R-PRINT-EXACT", "numbers are written into notation text with full precision (printers and text handed to notation constructors)")
    print_exact(eng, res)
    res.assumptions += [
        "holes inside |…| print as numbers that float() reads back; raw atom text contains no '|'",
        "printer bodies are in the fragment A-TEMPLATE evaluates (anything else is exit 2)",
    ]
    res.not_decided += [
        "that the re-parsed object equals the original for every string (scanner behaviour on all texts)",
        "printing being a fixed point for every float spelling; whitespace variants",
        "equality of molecules under equal seeds",
        "R-INSERT-IDEMPOTENT of the design was dropped: the descriptor counting could not be made exact",
    ]
