#!/usr/bin/env python3
"""Regenerates MANIFEST.json from sa/manifest_data.py (single source of truth)."""
import json, os, sys
sys.path.insert(0, os.path.dirname(os.path.abspath(__file__)))
from sa.manifest_data import CHECKS, NOT_APPLICABLE, NOTES

PY = "/venv/bin/python"
checks = []
for pid, c in sorted(CHECKS.items()):
    checks.append({
        "property_id": pid,
        "quick_cmd": f"{PY} sa/check.py {pid}",
        "thorough_cmd": f"{PY} sa/check.py {pid} --tier thorough",
        "evidence_file": f"/verif/evidence/{pid}.json",
        "replay_cmd_template": f"{PY} sa/check.py {pid} --explain {{path}}",
        "engine": "sa",
        "level_claimed": {"category": c["level"], "text": c["text"], "design_ref": c["design_ref"]},
        "level_note": c["note"],
        "technique": c["technique"],
    })
m = {
    "version": 1,
    "setup_cmd": f"{PY} sa/selftest.py --engine",
    "hooks": {
        "guard": "GBIGSMILES_VERIF",
        "enable": "none needed: the checks read the unmodified sources of /repo (no hook commit exists)",
        "baseline_off_cmd": "cd /repo && /venv/bin/python -m pytest -ra -q -p no:cacheprovider --timeout=900 --continue-on-collection-errors",
        "source_commits": [],
        "add_only": True,
    },
    "engines": [{
        "name": "sa",
        "path": "/verif/sa",
        "serves_properties": sorted(CHECKS),
        "kind_free_text": "repository-specific static analysis in pure stdlib Python (ast): loader, resolved call graph, per-function CFG with must-pass / guard queries, reaching definitions with provenance terms, finite-domain formula decision, string-cursor reasoning, printer-template extraction; never imports or runs gbigsmiles",
    }],
    "checks": checks,
    "not_applicable": [{"property_id": k, "reason": v} for k, v in sorted(NOT_APPLICABLE.items())],
    "notes": NOTES,
}
with open(os.path.join(os.path.dirname(os.path.abspath(__file__)), "MANIFEST.json"), "w") as fh:
    json.dump(m, fh, indent=1)
    fh.write("\n")
print("MANIFEST.json written:", len(checks), "checks,", len(NOT_APPLICABLE), "not applicable")
